"""goto-cc -> goto-instrument --dfcc -> cbmc pipeline for one verification unit."""
import json
import os
import re
import resource
import subprocess
import time

from .extract import Ctx, ExtractionDrift

VERIF = os.path.dirname(os.path.dirname(os.path.abspath(__file__)))
GEN = os.environ.get("VERIF_GEN", os.path.join(VERIF, "gen"))
PRELUDE = os.path.join(VERIF, "prelude")
MEM_KB = int(os.environ.get("VERIF_MEM_GB", "10")) * 1024 * 1024


class Undecided(Exception):
    """Timeout, tool error, vacuity-guard failure: exit 2, never a violation."""


class Unit:
    """One verification unit = one cbmc run (normally one enforced contract).

    build(ctx) -> C source text (uses ctx.func/ctx.span on /repo's text).
    """

    def __init__(
        self,
        name,
        build,
        entry,
        enforce=None,
        replace=(),
        loop_contracts=False,
        cbmc_args=(),
        unwind=None,
        bounded=None,
        timeout=300,
        tier="quick",
        must_have=(),
        backend="sat",
        replay=None,
        assumptions=(),
        note="",
        checks=("--bounds-check", "--pointer-check", "--div-by-zero-check", "--signed-overflow-check", "--conversion-check", "--undefined-shift-check"),
        no_canary=False,
        defines=(),
        object_bits=None,
        pre_unwindset=(),
    ):
        self.name = name
        self.build = build
        self.entry = entry
        self.enforce = enforce
        self.replace = list(replace)
        self.loop_contracts = loop_contracts
        self.cbmc_args = list(cbmc_args)
        self.unwind = unwind
        self.bounded = bounded  # None, or a string stating the bound
        self.timeout = timeout
        self.tier = tier
        self.must_have = list(must_have)
        self.backend = backend
        self.replay = replay
        self.assumptions = list(assumptions)
        self.note = note
        self.checks = list(checks)
        self.no_canary = no_canary
        self.defines = list(defines)
        self.object_bits = object_bits
        self.pre_unwindset = list(pre_unwindset)  # loops fully unwound (with unwinding assertions) before contracts are applied


CPU_LIMIT_S = 7200


def _limits():
    # own session / process group: cbmc starts SMT solvers (z3, cvc5) as children, which must die with it
    os.setsid()
    resource.setrlimit(resource.RLIMIT_AS, (MEM_KB * 1024, MEM_KB * 1024))
    # safety net inherited by the solver children: a solver orphaned in spite of the group kill stops by itself
    resource.setrlimit(resource.RLIMIT_CPU, (CPU_LIMIT_S, CPU_LIMIT_S + 60))


def _kill_tree(pr):
    """Kill a child started with _limits (session leader) together with everything it spawned."""
    import signal
    for sig_target in (pr.pid,):
        try:
            os.killpg(sig_target, signal.SIGKILL)
        except (ProcessLookupError, PermissionError):
            pass
    try:
        subprocess.run(["pkill", "-9", "-s", str(pr.pid)], stdout=subprocess.DEVNULL, stderr=subprocess.DEVNULL)
    except Exception:
        pass
    try:
        pr.kill()
    except Exception:
        pass
    try:
        pr.wait(timeout=10)
    except Exception:
        pass


def _tmp_env():
    """Private TMPDIR for one tool run (cbmc leaves its SMT / CNF scratch files behind when killed); removed by the caller."""
    import tempfile
    d = tempfile.mkdtemp(prefix="vk.", dir=os.environ.get("VERIF_TMP", "/tmp"))
    env = dict(os.environ)
    env["TMPDIR"] = d
    return d, env


def _run(cmd, timeout, log):
    import shutil
    t0 = time.time()
    tmpd, env = _tmp_env()
    pr = subprocess.Popen(cmd, stdout=subprocess.PIPE, stderr=subprocess.PIPE, preexec_fn=_limits, env=env)
    try:
        so, se = pr.communicate(timeout=timeout)
    except subprocess.TimeoutExpired:
        _kill_tree(pr)
        raise Undecided("timeout after %ds: %s" % (timeout, " ".join(cmd[:3])))
    finally:
        _kill_tree(pr)
        shutil.rmtree(tmpd, ignore_errors=True)

    class _P:
        pass
    p = _P()
    p.stdout, p.stderr, p.returncode = so, se, pr.returncode
    dt = time.time() - t0
    with open(log, "ab") as f:
        f.write(("$ " + " ".join(cmd) + "\n").encode())
        f.write(p.stdout[-200000:] if len(p.stdout) > 400000 else p.stdout)
        f.write(p.stderr)
    return p, dt


def _with_includes(src):
    """src plus the text of the prelude headers it includes (declarations of stubs live there)."""
    out = [src]
    seen = set()
    todo = re.findall(r'#include "([^"]+)"', src)
    while todo:
        h = todo.pop()
        if h in seen:
            continue
        seen.add(h)
        fp = os.path.join(PRELUDE, h)
        if os.path.exists(fp):
            t = open(fp).read()
            out.append(t)
            todo += re.findall(r'#include "([^"]+)"', t)
    return "\n".join(out)


def scan_assumes(src):
    """Mechanical scan: every __CPROVER_assume in the generated text."""
    return sorted(set(m.group(0) for m in re.finditer(r"__CPROVER_assume\s*\([^;]*;", src)))


def run_unit(u, repo=None, keep_trace=True):
    """Returns dict with status in {'pass','fail'} or raises Undecided/ExtractionDrift."""
    os.makedirs(GEN, exist_ok=True)
    ctx = Ctx(repo)
    src = u.build(ctx)
    base = os.path.join(GEN, u.name)
    cfile = base + ".c"
    with open(cfile, "w") as f:
        f.write(src)
    with open(base + ".drop.json", "w") as f:
        json.dump(ctx.report, f, indent=1)
    log = base + ".log"
    open(log, "w").close()
    t_start = time.time()
    gb0 = base + ".0.gb"
    gb1 = base + ".1.gb"
    cmd = ["goto-cc", "-I", PRELUDE, "-DVERIF_CBMC", "--function", u.entry, cfile, "-o", gb0] + ["-D" + d for d in u.defines]
    p, _ = _run(cmd, 120, log)
    if p.returncode != 0:
        raise ExtractionDrift("goto-cc rejected extracted text of %s: %s" % (u.name, (p.stdout + p.stderr).decode()[-600:]))
    if u.pre_unwindset:
        gbu = base + ".u.gb"
        cmd = ["goto-instrument", "--unwindset", ",".join(u.pre_unwindset), "--unwinding-assertions", gb0, gbu]
        p, _ = _run(cmd, 120, log)
        if p.returncode != 0:
            raise Undecided("goto-instrument --unwindset failed on %s: %s" % (u.name, (p.stdout + p.stderr).decode()[-800:]))
        gb0 = gbu
    if u.enforce or u.replace or u.loop_contracts:
        cmd = ["goto-instrument", "--dfcc", u.entry]
        if u.enforce:
            cmd += ["--enforce-contract", u.enforce]
        for r in u.replace:
            # a callee that the (possibly edited) body no longer calls is dropped by goto-cc and
            # would crash goto-instrument; it then needs no replacement
            if len(re.findall(r"\b%s\s*\(" % re.escape(r), _with_includes(src))) >= 2:
                cmd += ["--replace-call-with-contract", r]
        if u.loop_contracts:
            cmd += ["--apply-loop-contracts"]
        cmd += [gb0, gb1]
        p, _ = _run(cmd, 300, log)
        if p.returncode != 0:
            raise Undecided("goto-instrument failed on %s: %s" % (u.name, (p.stdout + p.stderr).decode()[-800:]))
    else:
        gb1 = gb0
    base_cmd = ["cbmc", gb1, "--json-ui", "--trace"] + u.checks + u.cbmc_args
    if u.unwind is not None:
        base_cmd += ["--unwind", str(u.unwind), "--unwinding-assertions"]
    if u.object_bits:
        base_cmd += ["--object-bits", str(u.object_bits)]
    BACK = {"sat": [], "cvc5": ["--cvc5"], "z3": ["--z3"], "kissat": ["--external-sat-solver", "kissat"]}
    backends = u.backend if isinstance(u.backend, (list, tuple)) else [u.backend]
    # floor of 15 min: unit times were measured on an idle machine; under load (16 units in parallel, other jobs) they can be 10x slower
    tmo = min(max(u.timeout, 900), int(os.environ.get("VERIF_TIMEOUT_CAP", "100000")))
    if len(backends) == 1:
        cmd = base_cmd + BACK[backends[0]]
        p, solver_s = _run(cmd, tmo, log)
        used = backends[0]
    else:
        # portfolio: the same query on several back ends in parallel; the first to answer decides
        t0 = time.time()
        procs = []
        tmpdirs = []
        for b in backends:
            c = base_cmd + BACK[b]
            fo = open(base + ".portfolio." + b + ".out", "wb")
            tmpd, env = _tmp_env()
            tmpdirs.append(tmpd)
            procs.append((b, c, subprocess.Popen(c, stdout=fo, stderr=subprocess.DEVNULL, preexec_fn=_limits, env=env), fo))
        done = None
        import selectors
        while time.time() - t0 < tmo and done is None:
            for b, c, pr, fo in procs:
                if pr.poll() is not None:
                    fo.flush()
                    o, e = open(fo.name, "rb").read(), b""
                    try:
                        js_try = json.loads(o.decode(errors="replace"))
                        # a back end whose solver died (killed, out of memory) reports status ERROR: it never decides
                        errored = any(it.get("cProverStatus") == "error" for it in js_try) or any(r.get("status") == "ERROR" for it in js_try for r in it.get("result", []))
                        if any("result" in it for it in js_try) and not errored:
                            done = (b, c, o, e, pr.returncode)
                            break
                    except Exception:
                        pass
            if done is None:
                if all(pr.poll() is not None for _, _, pr, _ in procs):
                    break
                time.sleep(0.2)
        for b, c, pr, fo in procs:
            _kill_tree(pr)     # also when it has exited: reap any solver child it left behind
            fo.close()
        import shutil
        for d in tmpdirs:
            shutil.rmtree(d, ignore_errors=True)
        if done is None:
            errs = []
            for b, c, pr, fo in procs:
                try:
                    txt = open(fo.name, "rb").read().decode(errors="replace")
                    errs += re.findall(r'"messageText": "([^"]*)",\s*"messageType": "ERROR"', txt)[-1:]
                except Exception:
                    pass
            if errs and time.time() - t0 < tmo:
                raise Undecided("every back end %s stopped without a result: %s" % (list(backends), " | ".join(errs)))
            raise Undecided("timeout after %ds on every back end %s: %s" % (tmo, list(backends), " ".join(base_cmd[:3])))
        used, cmd, o, e, rc = done
        solver_s = time.time() - t0
        with open(log, "ab") as f:
            f.write(("$ [portfolio winner %s] " % used + " ".join(cmd) + "\n").encode())
            f.write(o[-200000:] if len(o) > 400000 else o)

        class _P:
            pass
        p = _P()
        p.stdout, p.stderr, p.returncode = o, e, rc
    out = p.stdout.decode(errors="replace")
    try:
        js = json.loads(out)
    except Exception:
        raise Undecided("cbmc output of %s not parseable (rc=%d): %s" % (u.name, p.returncode, out[-500:] + p.stderr.decode()[-500:]))
    results = None
    messages = []
    for item in js:
        if "result" in item:
            results = item["result"]
        if "messageText" in item:
            messages.append(item["messageText"])
    if results is None:
        raise Undecided("cbmc gave no result for %s (rc=%d): %s" % (u.name, p.returncode, " | ".join(messages[-5:])))
    ignoring = [m for m in messages if "ignoring" in m or "not enough arguments" in m or "inserting non-deterministic" in m]
    if ignoring:
        raise Undecided("cbmc ignored a construct in %s: %s" % (u.name, ignoring[0]))
    total = len(results)
    if any(it.get("cProverStatus") == "error" for it in js) or any(r["status"] == "ERROR" for r in results):
        raise Undecided("back end error in %s (solver died or was killed; statuses ERROR): %s" % (u.name, " | ".join(messages[-3:])))
    failed = [r for r in results if r["status"] == "FAILURE"]
    unknown = [r for r in results if r["status"] not in ("SUCCESS", "FAILURE")]
    # reachability guards: `canary.reach` at the end of the harness and any `cover.<name>` assertion
    # (written as assert(!situation)) MUST fail, i.e. the situation is reachable under the preconditions
    def is_guard(r):
        d = r.get("description", "")
        return "canary.reach" in d or d.startswith("cover.")
    canary = [r for r in failed if "canary.reach" in r.get("description", "")]
    covers_all = [r for r in results if r.get("description", "").startswith("cover.")]
    covers_unreached = [r for r in covers_all if r["status"] == "SUCCESS"]
    if covers_unreached:
        raise Undecided("vacuity guard: situation %r is not reachable under the unit's preconditions" % covers_unreached[0]["description"])
    real_failed = [r for r in failed if not is_guard(r)]
    undefined = [r for r in real_failed if "undefined function should be unreachable" in r.get("description", "")]
    if undefined:
        # the extracted text calls a function the unit has no body / contract for (e.g. after a refactoring): nothing is decided about it
        raise Undecided("the extracted text of %s calls a function outside the unit (%s): not decided" % (u.name, undefined[0].get("property", "?")))
    if unknown and not real_failed:
        # UNKNOWN only follows a real FAILURE (cbmc stops refining); on its own it decides nothing
        raise Undecided("cbmc left %d obligations UNKNOWN in %s without a failing one" % (len(unknown), u.name))
    if not u.no_canary and not canary:
        raise Undecided("vacuity guard: canary assertion at the end of %s was not reachable/failing" % u.entry)
    n_oblig = total - len([r for r in results if is_guard(r)])
    if n_oblig <= 0:
        raise Undecided("vacuity guard: zero obligations in %s" % u.name)
    descs = [r.get("property", "") + " " + r.get("description", "") for r in results]
    for pat in u.must_have:
        if not any(re.search(pat, d) for d in descs):
            raise Undecided("vacuity guard: no obligation matching %r in %s (dropped contract clause?)" % (pat, u.name))
    res = {
        "unit": u.name,
        "status": "fail" if real_failed else "pass",
        "obligations": n_oblig,
        "discharged": n_oblig - len(real_failed),
        "solver_s": round(solver_s, 2),
        "wall_s": round(time.time() - t_start, 2),
        "backend": {"sat": "cbmc built-in SAT (minisat2/cadical)", "cvc5": "cvc5 (SMT2)", "z3": "z3 (SMT2)", "kissat": "kissat (external SAT)"}[used] + (" [portfolio %s]" % "/".join(backends) if len(backends) > 1 else ""),
        "bounded": u.bounded,
        "functions": [{"where": pc.ident(), "sha": pc.sha} for pc in ctx.pieces],
        "enforce": u.enforce,
        "replaced_by_contract": u.replace,
        "loop_contracts": u.loop_contracts,
        "assumptions": u.assumptions + ["assume in generated text: " + a for a in scan_assumes(src)],
        "rules_fired": sum(1 for r in ctx.report if r["fires"] > 0),
        "rules": len(ctx.report),
        "canary": "reach assertion FAILED as required" if canary else "disabled",
        "cmd": " ".join(cmd),
        "sample_obligations": [d for d in descs if "canary" not in d and " cover." not in d][:3],
        "covers_reached": [r.get("description", "") for r in covers_all],
        "failed": [],
        "cfile": cfile,
    }
    for r in real_failed:
        inputs = {}
        for st in r.get("trace", []) or []:
            if st.get("stepType") == "assignment" and st.get("assignmentType") == "variable":
                fn = (st.get("sourceLocation") or {}).get("function")
                lhs = st.get("lhs", "")
                val = st.get("value", {})
                if fn == u.entry and not lhs.startswith("__") and "data" in val:
                    inputs[lhs] = val.get("data")
                    if "binary" in val:
                        inputs[lhs + "#bin"] = val["binary"]
        res["failed"].append(
            {
                "obligation": r.get("property", "?"),
                "description": r.get("description", ""),
                "status": r["status"],
                "location": r.get("sourceLocation", {}),
                "inputs": inputs,
            }
        )
    return res
