#!/usr/bin/env python3
"""Regenerate MANIFEST.json from units/__init__.py (claims) + NA list."""
import json, os, sys
VERIF = os.path.dirname(os.path.dirname(os.path.abspath(__file__)))
sys.path.insert(0, VERIF)
from units import REGISTRY, NOT_APPLICABLE, HOOKS

checks = []
for pid in sorted(REGISTRY):
    s = REGISTRY[pid]
    checks.append({
        "property_id": pid,
        "quick_cmd": "bin/check %s --tier quick" % pid,
        "thorough_cmd": "bin/check %s --tier thorough" % pid,
        "evidence_file": "/verif/evidence/%s.json" % pid,
        "replay_cmd_template": "bin/check %s --replay {path}" % pid,
        "engine": "cbmc-contracts",
        "level_claimed": {"category": "proof", "text": s["level_text"], "design_ref": s.get("design_ref", "DESIGN.md 4")},
        "level_note": s["level_note"],
        "technique": s.get("technique", "CBMC code contracts (goto-instrument --dfcc enforce/replace, loop contracts) on C extracted mechanically from /repo each run"),
    })
m = {
    "version": 1,
    "setup_cmd": "bin/setup",
    "hooks": HOOKS,
    "engines": [{"name": "cbmc-contracts", "path": "/verif/bin/check", "serves_properties": sorted(REGISTRY),
                 "kind_free_text": "contract-based deductive verification: rule-driven extraction of the real functions to C, goto-instrument --dfcc function/loop contracts, cbmc SAT back end; native replay of counterexamples on the real headers"}],
    "checks": checks,
    "notes": "Exit codes of bin/check: 0 all obligations discharged, 1 VIOLATION, 2 undecided (timeout/tool error/extraction drift; never a violation). See DESIGN.md.",
    "not_applicable": [{"property_id": k, "reason": v} for k, v in sorted(NOT_APPLICABLE.items()) if k not in REGISTRY],
}
json.dump(m, open(os.path.join(VERIF, "MANIFEST.json"), "w"), indent=1)
print("MANIFEST.json: %d checks, %d not_applicable" % (len(checks), len(m["not_applicable"])))
