"""Native replay of verifier counterexamples on the real C++ headers."""
import hashlib
import json
import os
import re
import subprocess
import threading

VERIF = os.path.dirname(os.path.dirname(os.path.abspath(__file__)))
REPO = os.environ.get("VERIF_REPO", "/repo")
BIN = os.path.join(os.environ.get("VERIF_GEN", os.path.join(VERIF, "gen")), "native")
_lock = threading.Lock()

CXX = ["g++", "-std=c++17", "-O1", "-w", "-I", os.path.join(REPO, "src"), "-I", os.path.join(REPO, "_build", "include"),
       "-I", os.path.join(VERIF, "prelude", "celer_config"), "-I", os.path.join(VERIF, "prelude"), "-I", os.path.join(VERIF, "replay")]


def build_native(src_rel, extra=()):
    """Compile replay/<x>.cc against /repo's current headers; returns exe path or raises."""
    os.makedirs(BIN, exist_ok=True)
    src = os.path.join(VERIF, src_rel)
    exe = os.path.join(BIN, os.path.basename(src_rel).replace(".cc", "") + "".join(extra).replace("-D", "_").replace("=", "_"))
    with _lock:
        p = subprocess.run(CXX + list(extra) + [src, "-o", exe], stdout=subprocess.PIPE, stderr=subprocess.STDOUT, timeout=600)
    if p.returncode != 0:
        raise RuntimeError("native harness %s does not compile against /repo: %s" % (src_rel, p.stdout.decode()[-1500:]))
    return exe


def try_native(u, fl, rec):
    """Run the unit's native harness with the counterexample inputs.
    Returns (confirmed, detail)."""
    if not u.replay:
        return False, {"status": "no standalone native harness for this unit; obligation + verifier output recorded"}
    try:
        argv = u.replay["argv"](fl["inputs"], fl)
        if argv is None:
            return False, {"status": "counterexample is not an input (inductive/contract-level obligation)"}
        exe = build_native(u.replay["src"], u.replay.get("cxxflags", ()))
        runs = argv if argv and isinstance(argv[0], (list, tuple)) else [argv]
        build = " ".join(CXX + list(u.replay.get("cxxflags", ())) + [os.path.join(VERIF, u.replay["src"]), "-o", exe])
        tried = []
        for av in runs:
            p = subprocess.run([exe] + [str(x) for x in av], stdout=subprocess.PIPE, stderr=subprocess.STDOUT, timeout=600)
            out = p.stdout.decode(errors="replace")[-2000:]
            tried.append({"argv": [str(x) for x in av], "rc": p.returncode, "output": out})
            if p.returncode == 1:
                rec["replay_cmd"] = build + " && " + " ".join([exe] + [str(x) for x in av])
                return True, {"status": "reproduced on real code", "argv": [str(x) for x in av], "output": out, "tried": tried}
        return False, {"status": "not reproduced by the native harness", "tried": tried}
    except Exception as e:  # harness problems never turn into violations or hide them
        return False, {"status": "native replay unavailable: %s" % e}


def match_known(known_open, u, fl, rec):
    for k in known_open:
        if k.get("unit") and k["unit"] != u.name:
            continue
        if k.get("obligation_regex") and not re.search(k["obligation_regex"], fl["obligation"] + " " + fl["description"]):
            continue
        return k
    return None


def replay_file(path):
    rec = json.load(open(path))
    print(json.dumps({k: rec.get(k) for k in ("property", "unit", "obligation", "description", "inputs")}, indent=1))
    cmd = rec.get("replay_cmd")
    if not cmd:
        print("no native replay recorded for this obligation (no-failing-input-found); verifier command:\n " + rec.get("verifier_cmd", ""))
        return 0
    print("$ " + cmd)
    p = subprocess.run(cmd, shell=True)
    return p.returncode


def check_bindings():
    """Compile replay/bindings.cc (static_asserts only) against /repo's current headers."""
    p = subprocess.run(CXX + ["-fsyntax-only", os.path.join(VERIF, "replay", "bindings.cc")], stdout=subprocess.PIPE, stderr=subprocess.STDOUT, timeout=600)
    return p.returncode == 0, p.stdout.decode(errors="replace")[-2000:]
