"""Rule-driven C++ -> C extractor.

Everything here works on the *text* of /repo's current working tree.  A unit
asks for a function by (file, locator regex); the text from the locator match
up to the matching closing brace is cut out, comments are stripped, and a list
of regex rules is applied.  Every rule records how often it fired; a rule whose
firing count does not satisfy its expectation raises ExtractionDrift (exit 2,
never a violation).
"""
import hashlib
import os
import re

REPO = os.environ.get("VERIF_REPO", "/repo")


class ExtractionDrift(Exception):
    pass


def strip_comments(text):
    """Remove // and /* */ comments, keep line structure."""
    out = []
    i = 0
    n = len(text)
    while i < n:
        c = text[i]
        if c == '"':
            j = i + 1
            while j < n and text[j] != '"':
                if text[j] == "\\":
                    j += 1
                j += 1
            out.append(text[i : j + 1])
            i = j + 1
        elif c == "'" and not (i > 0 and text[i - 1].isalnum()):
            j = i + 1
            while j < n and text[j] != "'":
                if text[j] == "\\":
                    j += 1
                j += 1
            out.append(text[i : j + 1])
            i = j + 1
        elif text.startswith("//", i):
            j = text.find("\n", i)
            if j < 0:
                j = n
            i = j
        elif text.startswith("/*", i):
            j = text.find("*/", i + 2)
            seg = text[i : j + 2]
            out.append("\n" * seg.count("\n"))
            i = j + 2
        else:
            out.append(c)
            i += 1
    return "".join(out)


def match_close(text, i, open_ch="{", close_ch="}"):
    """text[i] == open_ch; return index of the matching close_ch."""
    assert text[i] == open_ch, (text[i : i + 20], open_ch)
    depth = 0
    n = len(text)
    j = i
    while j < n:
        c = text[j]
        if c == '"':
            j += 1
            while text[j] != '"':
                if text[j] == "\\":
                    j += 1
                j += 1
        elif c == open_ch:
            depth += 1
        elif c == close_ch:
            depth -= 1
            if depth == 0:
                return j
        j += 1
    raise ExtractionDrift("unbalanced %s at offset %d" % (open_ch, i))


class Rule:
    """regex substitution with an expected number of firings.

    fires: int (exactly), '+' (>=1), '*' (any), (lo, hi) inclusive range.
    repl may be a string (re.sub syntax) or a callable.
    """

    def __init__(self, pat, repl, fires="+", flags=0, note=""):
        self.pat = pat
        self.repl = repl
        self.fires = fires
        self.flags = flags
        self.note = note

    def apply(self, text, report, where):
        new, n = re.subn(self.pat, self.repl, text, flags=self.flags | re.M)
        ok = (
            (self.fires == "*")
            or (self.fires == "+" and n >= 1)
            or (isinstance(self.fires, int) and n == self.fires)
            or (isinstance(self.fires, tuple) and self.fires[0] <= n <= self.fires[1])
        )
        report.append(
            {"where": where, "rule": self.pat, "fires": n, "expected": str(self.fires), "note": self.note}
        )
        if not ok:
            raise ExtractionDrift(
                "rule %r fired %d times in %s, expected %s" % (self.pat, n, where, self.fires)
            )
        return new


def lower_casts(text, report, where):
    """static_cast<T>(e) -> ((T)(e)); needs paren matching, so not a regex."""
    n = 0
    while True:
        m = re.search(r"\bstatic_cast\s*<", text)
        if not m:
            break
        # find matching '>' (types here never contain '>' except nested <>)
        i = m.end() - 1
        depth = 0
        j = i
        while True:
            if text[j] == "<":
                depth += 1
            elif text[j] == ">":
                depth -= 1
                if depth == 0:
                    break
            j += 1
        ty = text[i + 1 : j].strip()
        k = j + 1
        while text[k].isspace():
            k += 1
        if text[k] != "(":
            raise ExtractionDrift("static_cast without ( in " + where)
        e = match_close(text, k, "(", ")")
        text = text[: m.start()] + "((" + ty + ")(" + text[k + 1 : e] + "))" + text[e + 1 :]
        n += 1
    report.append({"where": where, "rule": "static_cast<T>(e) -> ((T)(e))", "fires": n, "expected": "*", "note": "generic"})
    return text


# Generic token-level rules applied to every extracted piece (expected '*').
GENERIC = [
    Rule(r"\bCELER_(FORCEINLINE_|CONSTEXPR_)?FUNCTION\b", "", "*", note="generic: device/inline markers dropped"),
    Rule(r"\b(inline|constexpr|noexcept|explicit)\b", "", "*", note="generic: specifiers dropped"),
    Rule(r"::celeritas::detail::", "", "*", note="generic: namespace qualification dropped"),
    Rule(r"::celeritas::", "", "*", note="generic: namespace qualification dropped"),
    Rule(r"\bdetail::", "", "*", note="generic: namespace qualification dropped"),
    Rule(r"\bstd::(u?int(8|16|32|64)_t|size_t)\b", r"\1", "*", note="generic: std:: fixed-width ints"),
    Rule(r"\bCELER_UNLIKELY\b", "", "*", note="generic"),
]


class Piece:
    def __init__(self, relpath, locator, head, body, line0, line1, raw):
        self.relpath = relpath
        self.locator = locator
        self.head = head  # text between locator start and the opening brace
        self.body = body  # text inside the outer braces (without them)
        self.line0 = line0
        self.line1 = line1
        self.sha = hashlib.sha256(raw.encode()).hexdigest()[:16]

    def ident(self):
        return "%s:%d-%d" % (self.relpath, self.line0, self.line1)


class Ctx:
    """Per-unit extraction context: records pieces and rule firings."""

    def __init__(self, repo=None):
        self.repo = repo or REPO
        self.pieces = []
        self.report = []
        self._cache = {}

    def read(self, relpath):
        if relpath not in self._cache:
            p = os.path.join(self.repo, relpath)
            if not os.path.exists(p):
                raise ExtractionDrift("missing file " + relpath)
            with open(p) as f:
                self._cache[relpath] = strip_comments(f.read())
        return self._cache[relpath]

    def func(self, relpath, locator, rules=(), generic=True, name=None, skip_init_list=False, spans_scope=False):
        """Cut the function whose header matches `locator` (must match once)."""
        text = self.read(relpath)
        ms = list(re.finditer(locator, text, flags=re.M | re.S))
        if len(ms) != 1:
            raise ExtractionDrift("locator %r matched %d times in %s" % (locator, len(ms), relpath))
        m = ms[0]
        if "{" in m.group(0) and not skip_init_list and not spans_scope:      # spans_scope: the locator deliberately starts at an enclosing `struct X {`
            # a locator that consumes the function's opening brace would make the "body" an inner block (vacuity hole found in c11_calc_safety_distance)
            raise ExtractionDrift("locator %r consumes a '{' in %s: the function body would be cut short" % (locator, relpath))
        i = text.find("{", m.end())
        semi = text.find(";", m.end())
        if i < 0 or (0 <= semi < i and not skip_init_list):
            raise ExtractionDrift("locator %r in %s is not followed by a body" % (locator, relpath))
        j = match_close(text, i)
        raw = text[m.start() : j + 1]
        line0 = text.count("\n", 0, m.start()) + 1
        line1 = text.count("\n", 0, j) + 1
        where = name or ("%s:%d" % (relpath, line0))
        body = text[i + 1 : j]
        head = text[m.start() : i]
        body = lower_casts(body, self.report, where)
        if generic:
            for r in GENERIC:
                body = r.apply(body, self.report, where)
        for r in rules:
            body = r.apply(body, self.report, where)
        pc = Piece(relpath, locator, head, body, line0, line1, raw)
        self.pieces.append(pc)
        return pc

    def span(self, relpath, start, end, rules=(), name=None):
        """Cut text from regex `start` (inclusive) to regex `end` (inclusive)."""
        text = self.read(relpath)
        ms = list(re.finditer(start, text, flags=re.M | re.S))
        if len(ms) != 1:
            raise ExtractionDrift("span start %r matched %d times in %s" % (start, len(ms), relpath))
        m = ms[0]
        e = re.compile(end, flags=re.M | re.S).search(text, m.end())
        if not e:
            raise ExtractionDrift("span end %r not found in %s" % (end, relpath))
        raw = text[m.start() : e.end()]
        line0 = text.count("\n", 0, m.start()) + 1
        line1 = text.count("\n", 0, e.end()) + 1
        where = name or ("%s:%d" % (relpath, line0))
        body = raw
        for r in rules:
            body = r.apply(body, self.report, where)
        pc = Piece(relpath, start, "", body, line0, line1, raw)
        self.pieces.append(pc)
        return pc


def harvest_expects(body):
    """Return (list of CELER_EXPECT condition texts, body unchanged).

    The conditions become conjuncts of the enforced function's `requires`;
    the macro itself stays in the body where the prelude maps it to an
    assertion (then trivially discharged from the requires)."""
    conds = []
    for m in re.finditer(r"\bCELER_EXPECT\s*\(", body):
        k = m.end() - 1
        e = match_close(body, k, "(", ")")
        conds.append(body[k + 1 : e].strip())
    return conds


class LoopContracts:
    """Inject loop contracts by loop ordinal (text order of for/while/do headers).

    contracts: list with one entry per loop in the body, in text order; each
    entry is the contract text to insert after the loop header's closing
    parenthesis (for `do` loops: between `do` and the body; the invariant is then
    evaluated at the start of the body), or None to
    leave the loop without contract (it is then unwound).  The number of loops
    found must equal len(contracts), otherwise ExtractionDrift: an added or
    removed loop is never silently left without its invariant.  Header *text*
    is free to change (that is what a mutant or a refactor edits)."""

    def __init__(self, contracts, note="loop contracts injected by ordinal"):
        self.contracts = contracts
        self.note = note
        self.pat = "loop-contracts[%d]" % len(contracts)

    def apply(self, text, report, where):
        # find loop keywords at any depth, in order
        heads = []  # (kind, insert_pos)
        do_stack = []
        for m in re.finditer(r"\b(for|while|do)\b", text):
            kind = m.group(1)
            if kind == "do":
                heads.append(["do", None, m.start(), m.end()])
                continue
            k = m.end()
            while text[k].isspace():
                k += 1
            if text[k] != "(":
                raise ExtractionDrift("loop keyword without ( in " + where)
            e = match_close(text, k, "(", ")")
            if kind == "while":
                # is this the tail of a do-while?  (followed by ';' and preceded by '}')
                t = e + 1
                while t < len(text) and text[t].isspace():
                    t += 1
                b = m.start() - 1
                while b >= 0 and text[b].isspace():
                    b -= 1
                if t < len(text) and text[t] == ";" and b >= 0 and text[b] == "}":
                    # attach to the innermost open do without tail
                    for h in reversed(heads):
                        if h[0] == "do" and h[1] is None:
                            h[1] = h[3]     # CBMC wants a do-loop's contract between `do` and the body
                            break
                    continue
            heads.append([kind, e + 1, m.start()])
        if len(heads) != len(self.contracts):
            raise ExtractionDrift("%d loops found in %s, %d loop contracts declared" % (len(heads), where, len(self.contracts)))
        ins = sorted(((h[1], c) for h, c in zip(heads, self.contracts) if c), reverse=True)
        for pos, c in ins:
            if pos is None:
                raise ExtractionDrift("do-loop without while tail in " + where)
            text = text[:pos] + "\n" + c + "\n" + text[pos:]
        report.append({"where": where, "rule": self.pat, "fires": len(ins), "expected": str(len(ins)), "note": self.note})
        return text


class IIFE:
    """Immediately-invoked lambda `[&] { ... return e; ... }()` -> GNU statement expression.

    ({ T lam_k; { ...  { lam_k = e; goto lam_end_k; } ... } lam_end_k: ; lam_k; })
    `types` gives the result type of each lambda in text order; the number of
    lambdas found must equal len(types)."""

    def __init__(self, types, note="immediately-invoked lambda -> GNU statement expression"):
        self.types = types
        self.note = note
        self.pat = "iife[%d]" % len(types)

    def apply(self, text, report, where):
        n = 0
        while True:
            m = re.search(r"\[&[^\]]*\]\s*\{", text)
            if not m:
                break
            if n >= len(self.types):
                raise ExtractionDrift("more immediately-invoked lambdas than declared in " + where)
            b = m.end() - 1
            e = match_close(text, b)
            tail = re.match(r"\s*\(\s*\)", text[e + 1 :])
            if not tail:
                raise ExtractionDrift("lambda is not immediately invoked in " + where)
            body = text[b + 1 : e]
            # return e;  ->  { lam = e; goto end; }
            body = re.sub(r"\breturn\s+([^;]*);", lambda mm: "{ lam_%d = %s; goto lam_end_%d; }" % (n, mm.group(1), n), body)
            rep = "({ %s lam_%d; {%s} lam_end_%d: ; lam_%d; })" % (self.types[n], n, body, n, n)
            text = text[: m.start()] + rep + text[e + 1 + tail.end() :]
            n += 1
        if n != len(self.types):
            raise ExtractionDrift("%d immediately-invoked lambdas found in %s, %d declared" % (n, where, len(self.types)))
        report.append({"where": where, "rule": self.pat, "fires": n, "expected": str(n), "note": self.note})
        return text



class StripPP:
    """Remove `#if <cond> ... #endif` blocks (with nesting; an #else keeps the other branch) whose
    condition matches `cond` -- used for CELERITAS_DEBUG (bound to 0) and host-logging blocks."""

    def __init__(self, cond, keep_else=True, fires="+", note=""):
        self.cond = cond
        self.keep_else = keep_else
        self.fires = fires
        self.note = note or ("preprocessor block `#if %s` dropped" % cond)
        self.pat = "strip-pp[%s]" % cond

    def apply(self, text, report, where):
        lines = text.split("\n")
        out = []
        n = 0
        i = 0
        while i < len(lines):
            ln = lines[i]
            if re.match(r"\s*#\s*if\s+" + self.cond + r"\s*$", ln):
                n += 1
                depth = 1
                i += 1
                in_else = False
                while i < len(lines) and depth > 0:
                    l2 = lines[i]
                    if re.match(r"\s*#\s*if", l2):
                        depth += 1
                    elif re.match(r"\s*#\s*endif", l2):
                        depth -= 1
                        if depth == 0:
                            break
                    elif depth == 1 and re.match(r"\s*#\s*else", l2):
                        in_else = True
                        i += 1
                        continue
                    if in_else and self.keep_else:
                        out.append(l2)
                    i += 1
                i += 1
                continue
            out.append(ln)
            i += 1
        ok = (self.fires == "*") or (self.fires == "+" and n >= 1) or (isinstance(self.fires, int) and n == self.fires)
        report.append({"where": where, "rule": self.pat, "fires": n, "expected": str(self.fires), "note": self.note})
        if not ok:
            raise ExtractionDrift("%s fired %d times in %s, expected %s" % (self.pat, n, where, self.fires))
        return "\n".join(out)


class NamedLambda:
    """`auto NAME = [caps](T p) { BODY };` used as `NAME(arg)`  ->  every call becomes a GNU statement expression
    ({ T p = (arg); R lam; { BODY with `return e;` -> { lam = e; goto end_k; } } end_k: ; lam; })."""

    def __init__(self, name, result_type, note=""):
        self.name = name
        self.rtype = result_type
        self.note = note or ("named lambda %s inlined at its call sites as a statement expression" % name)
        self.pat = "named-lambda[%s]" % name

    def apply(self, text, report, where):
        m = re.search(r"auto\s+%s\s*=\s*\[[^\]]*\]\s*\(([^()]*)\)\s*\{" % re.escape(self.name), text)
        if not m:
            raise ExtractionDrift("named lambda %s not found in %s" % (self.name, where))
        b = m.end() - 1
        e = match_close(text, b)
        tail = re.match(r"\s*;", text[e + 1 :])
        if not tail:
            raise ExtractionDrift("named lambda %s: definition not terminated by ';' in %s" % (self.name, where))
        param = m.group(1).strip()
        body = text[b + 1 : e]
        text = text[: m.start()] + text[e + 1 + tail.end() :]
        n = 0
        while True:
            c = re.search(r"\b%s\s*\(" % re.escape(self.name), text)
            if not c:
                break
            k = c.end() - 1
            ce = match_close(text, k, "(", ")")
            arg = text[k + 1 : ce]
            bd = re.sub(r"\breturn\s+([^;]*);", lambda mm: "{ nl_%s_%d = %s; goto nl_end_%s_%d; }" % (self.name, n, mm.group(1), self.name, n), body)
            rep = "({ %s = (%s); %s nl_%s_%d; {%s} nl_end_%s_%d: ; nl_%s_%d; })" % (param, arg, self.rtype, self.name, n, bd, self.name, n, self.name, n)
            text = text[: c.start()] + rep + text[ce + 1 :]
            n += 1
        report.append({"where": where, "rule": self.pat, "fires": n, "expected": "+", "note": self.note})
        if n == 0:
            raise ExtractionDrift("named lambda %s is never called in %s" % (self.name, where))
        return text


class MulToUF:
    """Lower multiplicative chains `A * B * C` over simple operands to nested calls MUL(MUL(A, B), C).

    Operands: numbers, identifiers with member access / subscripts, or one-level calls `F(args-without-parens)`.
    Used where products are treated as uninterpreted (MUL is made commutative by its definition in the prelude text)."""

    OPERAND = r"(?:\d+(?:\.\d*)?|[A-Za-z_]\w*(?:\((?:[^()]|\([^()]*\))*\))?(?:(?:->|\.)\w+|\[[^\[\]]*\])*)"

    def __init__(self, fn="MUL", note="products -> uninterpreted commutative function"):
        self.fn = fn
        self.note = note
        self.pat = "mul-to-uf"

    def apply(self, text, report, where):
        chain = re.compile(r"(?<![\w\)\]])(%s(?:\s*\*\s*%s)+)" % (self.OPERAND, self.OPERAND))
        n = 0

        def repl(m):
            nonlocal n
            ops = [o.strip() for o in re.split(r"\s*\*\s*", m.group(1))]
            lits = [o for o in ops if re.fullmatch(r"\d+(?:\.\d*)?", o)]
            var = [o for o in ops if o not in lits]
            if not var:
                return m.group(1)
            acc = var[0]
            for o in var[1:]:
                acc = "%s(%s, %s)" % (self.fn, acc, o)
                n += 1
            if lits:
                # numeric literal factors are pulled out in front (exact scaling, position in the chain irrelevant)
                if lits == ["2"]:
                    acc = "(%s + %s)" % (acc, acc)   # doubling is exact: 2 * x == x + x in IEEE arithmetic
                else:
                    acc = "(%s * %s)" % (" * ".join(lits), acc)
                n += 1
            return acc

        out_lines = []
        for ln in text.split("\n"):
            # do not touch declarations of pointers (`T* x`) -- chains need spaces around '*' or numeric/identifier operands on both sides
            out_lines.append(chain.sub(repl, ln) if " * " in ln else ln)
        report.append({"where": where, "rule": self.pat, "fires": n, "expected": "*", "note": self.note})
        return "\n".join(out_lines)


def init_list(head):
    """Member initialiser list of a constructor head (text between the locator and the body's `{`)
    -> [(member, expression text)] in source order; anything unparsed raises ExtractionDrift."""
    i = head.index("(")
    j = match_close(head, i, "(", ")")
    rest = head[j + 1 :]
    k = rest.find(":")
    if k < 0:
        return []
    s = rest[k + 1 :]
    items = []
    pos = 0
    pat = re.compile(r"\s*,?\s*(\w+)\s*([({])")
    while True:
        m = pat.match(s, pos)
        if not m:
            break
        o = m.end() - 1
        c = match_close(s, o, m.group(2), ")" if m.group(2) == "(" else "}")
        items.append((m.group(1), s[o + 1 : c].strip()))
        pos = c + 1
    if s[pos:].strip():
        raise ExtractionDrift("unparsed member initialiser text %r" % s[pos:].strip()[:60])
    return items


class TempCall:
    """`return Name{args}(rng);` / `return Name(args)(rng);` (construct a temporary functor and call it)
    -> `{ Name tmp_; CTOR(&tmp_, args); return CALL(&tmp_, rng); }`"""

    def __init__(self, name, ctor, call, fires=1, note=None):
        self.name, self.ctor, self.call, self.fires = name, ctor, call, fires
        self.note = note or "temporary functor construct-and-call -> constructor function + call function"
        self.pat = "tempcall[%s]" % name

    def apply(self, text, report, where):
        n = 0
        while True:
            m = re.search(r"return\s+%s\s*([({])" % re.escape(self.name), text)
            if not m:
                break
            o = m.end() - 1
            c = match_close(text, o, m.group(1), ")" if m.group(1) == "(" else "}")
            tail = re.match(r"\s*\(\s*rng\s*\)\s*;", text[c + 1 :])
            if not tail:
                raise ExtractionDrift("temporary %s is not called with (rng) in %s" % (self.name, where))
            args = text[o + 1 : c]
            rep = "{ %s tmp_; %s(&tmp_, %s); return %s(&tmp_, rng); }" % (self.name, self.ctor, args, self.call)
            text = text[: m.start()] + rep + text[c + 1 + tail.end() :]
            n += 1
        if n != self.fires:
            raise ExtractionDrift("rule %r fired %d times in %s, expected %s" % (self.pat, n, where, self.fires))
        report.append({"where": where, "rule": self.pat, "fires": n, "expected": str(self.fires), "note": self.note})
        return text
